#!/usr/bin/env python3
"""Regenerates the tables of DESIGN.md section 8 from MANIFEST.json, evidence/*.json, known_findings.json, seeded/."""
import json, os, re
HERE = os.path.dirname(os.path.abspath(__file__))
M = json.load(open(os.path.join(HERE, 'MANIFEST.json')))
props = [json.loads(l) for l in open(os.path.join(HERE, 'properties.jsonl'))]
checks = {c['property_id']: c for c in M['checks']}
na = {c['property_id']: c['reason'] for c in M.get('not_applicable', [])}


def status_table():
    rows = ['| id | level | obligations discharged (U+S) | functions under contract | paths / configs | bounded evaluations | known findings | wall (quick) |',
            '|---|---|---|---|---|---|---|---|']
    for p in props:
        pid = p['id']
        if pid not in checks:
            rows.append(f"| {pid} | not claimed | — | — | — | — | — | {na.get(pid, '')[:80]} |")
            continue
        ep = os.path.join(HERE, 'evidence', f'{pid}.json')
        if not os.path.exists(ep):
            rows.append(f"| {pid} | {checks[pid]['level_claimed']['category']} | (no evidence yet) |||||"); continue
        e = json.load(open(ep)); c = e['coverage']
        fns = c.get('functions_under_contract', [])
        nU = sum(1 for f in fns if str(f.get('mode', '')).startswith('U'))
        nB = sum(1 for f in fns if 'bounded' in str(f.get('mode', '')))
        nS = len(fns) - nU - nB
        rows.append(f"| {pid} | {e['level']} | {c.get('discharged')}/{c.get('obligations')} (U {c.get('obligations_U', 0)}) | U {nU}, S {nS}, B {nB} | "
                    f"{c.get('paths', 0)} / {c.get('configs', 0)} | {c.get('bounded_evaluations', 0)} | {', '.join(c.get('known_findings_reproduced', [])) or '—'} | {e['wall_s']} s |")
    return '\n'.join(rows)


def findings_table():
    K = json.load(open(os.path.join(HERE, 'known_findings.json')))['findings']
    rows = ['| id | property | status | commit | what |', '|---|---|---|---|---|']
    for k in K:
        what = k.get('what') or k.get('line', '').split(' ', 3)[-1]
        rows.append(f"| {k['id']} | {k['property']} | {k['status']} | {k.get('commit') or '—'} | {what[:260]} |")
    nf = sum(1 for k in K if k['status'] == 'fixed'); nk = sum(1 for k in K if k['status'] == 'finding')
    return f'{nf} defects repaired by `fix:` commits, {nk} known-finding entries.\n\n' + '\n'.join(rows)


def seeded_table():
    rp = os.path.join(HERE, 'seeded', 'RESULTS.json')
    if not os.path.exists(rp): return '(not run yet)'
    R = json.load(open(rp))
    rows = ['| change | property | what was changed | caught by | note |', '|---|---|---|---|---|']
    caught = total = 0
    for i in sorted(R):
        r = R[i]
        if 'status' in r and 'checks' not in r:
            rows.append(f"| {i} | {r.get('property')} | — | — | {r['status'][:160]} |"); continue
        total += 1
        who = [p for p, c in r['checks'].items() if isinstance(c, dict) and c.get('caught')]
        if who: caught += 1
        notes = []
        for p, c in r['checks'].items():
            if isinstance(c, str): notes.append(f'{p}: {c}')
            elif not c.get('caught'): notes.append(f"{p}: exit {c.get('exit')}")
        mp = os.path.join(HERE, 'seeded', i, 'meta.json')
        extra = json.load(open(mp)).get('strengthened', '') if os.path.exists(mp) else ''
        rows.append(f"| {i} | {r.get('property')} | {(r.get('summary') or '')[:170]} | {', '.join(who) or '**missed**'} | {'; '.join(notes)} {extra} |")
    return f'{caught} of {total} applicable seeded changes are reported as VIOLATION by the quick check of a claimed property.\n\n' + '\n'.join(rows)


p = os.path.join(HERE, 'DESIGN.md'); s = open(p).read()
for tag, fn in (('STATUS', status_table), ('FINDINGS', findings_table), ('SEEDED', seeded_table)):
    s = re.sub(rf'<!-- {tag}-TABLE-BEGIN -->.*?<!-- {tag}-TABLE-END -->', lambda m: f'<!-- {tag}-TABLE-BEGIN -->\n{fn()}\n<!-- {tag}-TABLE-END -->', s, flags=re.S)
open(p, 'w').write(s)
print('DESIGN.md tables regenerated')
